//! C05 — the computed action reflects exactly the matched rules: implementation side.
//!
//! case: {"rules":[R…], "ov":bool|null, "skipped":str|null, "codes":[u16…], "ops":[{"op":"status"|"headers"|"body"|"log"}|{"op":"final","fb":u16}…],
//!        "headers":[[name,value]…], "body":str, "allow_log":bool, "ct":str|null, "via":"direct"|"router"}
//!   R = {"id","rank","status_code","target","codes","excl","sampling","hf":[{"action","header","value","id","target_hash"}],
//!        "bf":[{"kind":"text","action","content","id","target_hash"} | {"kind":"html","action","value","inner_value","element_tree","css_selector","id","target_hash"}],
//!        "log","reset","stop","ru","lu","th","ips":[cidr…]}   (every key but id/rank optional; missing = null)
//!   optional "ip": client address of the request (router mode; with "ips" it replays defect D1: a rule matched
//!   through two of its ip ranges must reach the action once — oracle `dup-match`)
//! obs:  {"action": serde_json(Action::from_routes_rule), "codes":[{"c":code,"ops":[{"op","r","ids"}…]}…],
//!        "trace": null | [{"id": rule id, "action": cumulative action}…]}   ("router" mode with pairwise distinct ranks:
//!        TraceAction::from_trace_rules(router.trace_request(q), q), C17 clause 3)
//!   per response code the observers run in the given sequence on a fresh clone of the action;
//!   "ids" = get_applied_rule_ids() after the call, in LinkedHashSet order.
//! The rules are real `api::Rule`s (serde), turned into routes by `IntoRoute` ("direct": the match vector is
//! the case order) or inserted into a real `Router` in case order and matched ("router").
#![allow(dead_code)]
use redirectionio::action::{Action, TraceAction, UnitTrace};
use redirectionio::api::Rule;
use redirectionio::http::{Header, PathAndQueryWithSkipped, Request};
use redirectionio::router::{IntoRoute, Route, Router};
use redirectionio::RouterConfig;
use rio_harness::*;
use serde_json::{json, Map, Value};
use std::sync::Arc;

pub const IDS: &[&str] = &["a", "b", "ab", "a0", "B", "Z", "z", "é", "~", "aa", "ba", "0"];
pub const RANKS: &[u64] = &[0, 1, 1, 2, 2, 2, 3, 65535];
pub const STATUS: &[u64] = &[301, 302, 404, 410, 200];
pub const RESPONSE_CODES: &[u64] = &[0, 200, 301, 302, 404, 410, 500];
/// target hashes shared between filters so that `override` / `add` with the same target collide in the unit trace
pub const TARGET_HASHES: &[&str] = &["th-a", "th-a", "th-b", "status_code", "text", "configuration::log"];
pub const DIFF_PROBE: &[&str] = &["hu00", "ru0", "lu0", "cu0", "bu00", "nope", "ru0", "hu10", "ru1"];
pub const CODE_LISTS: &[&[u64]] = &[&[], &[404], &[301, 404], &[200], &[0], &[404, 404], &[410, 500], &[200, 301, 302, 404, 410, 500]];

fn opt<T: Into<Value>>(rng: &mut Prng, num: usize, den: usize, v: T) -> Value {
    if rng.chance(num, den) {
        v.into()
    } else {
        Value::Null
    }
}

fn pick_hash(rng: &mut Prng) -> Value {
    let th = *rng.pick(TARGET_HASHES);
    opt(rng, 2, 3, th)
}

fn opt_bool(rng: &mut Prng, p_some: (usize, usize), p_true: (usize, usize)) -> Value {
    if rng.chance(p_some.0, p_some.1) {
        Value::Bool(rng.chance(p_true.0, p_true.1))
    } else {
        Value::Null
    }
}

/// One abstract rule.  `ri` makes filter values unique so that order and attribution are observable.
pub fn gen_rule(rng: &mut Prng, id: &str, ri: usize, ov_set: bool, allow_html: bool) -> Value {
    let mut r = Map::new();
    r.insert("id".into(), json!(id));
    r.insert("rank".into(), json!(*rng.pick(RANKS)));
    // status code: none / Some(0) / from the pool
    let sc = match rng.below(10) {
        0..=3 => Value::Null,
        4 => json!(0),
        _ => json!(*rng.pick(STATUS)),
    };
    r.insert("status_code".into(), sc);
    let target = match rng.below(8) {
        0..=3 => Value::Null,
        4 => json!(""),
        5 => json!(format!("/t{ri}?x=1")),
        _ => json!(format!("/t{ri}")),
    };
    r.insert("target".into(), target);
    // response status condition
    let codes = match rng.below(10) {
        0..=3 => Value::Null,
        _ => json!(rng.pick(CODE_LISTS).to_vec()),
    };
    r.insert("codes".into(), codes);
    r.insert("excl".into(), opt_bool(rng, (1, 3), (2, 3)));
    // sampling: only rates whose outcome does not depend on the draw (any rate once the override is set)
    let sampling = if rng.chance(1, 3) {
        if ov_set {
            json!(*rng.pick(&[0u64, 1, 50, 99, 100, 101, 4294967295]))
        } else {
            json!(*rng.pick(&[0u64, 100, 100, 101, 4294967295]))
        }
    } else {
        Value::Null
    };
    r.insert("sampling".into(), sampling);
    // header filters
    let hf = match rng.below(6) {
        0 | 1 => Value::Null,
        2 => json!([]),
        _ => {
            let n = rng.range(1, 3);
            let v: Vec<Value> = (0..n)
                .map(|hi| {
                    json!({
                        "action": *rng.pick(&["add", "add", "add", "override", "remove", "replace", "default", "nope"]),
                        "header": *rng.pick(&["X-A", "x-a", "X-B", "Location", "X-C"]),
                        "value": format!("r{ri}h{hi}"),
                        "id": opt(rng, 2, 3, format!("hu{ri}{hi}")),
                        "target_hash": pick_hash(rng),
                    })
                })
                .collect();
            Value::Array(v)
        }
    };
    r.insert("hf".into(), hf);
    let bf = match rng.below(6) {
        0 | 1 => Value::Null,
        2 => json!([]),
        _ => {
            let n = rng.range(1, 3);
            let v: Vec<Value> = (0..n)
                .map(|bi| {
                    if allow_html && rng.chance(1, 4) {
                        json!({
                            "kind": "html",
                            "action": *rng.pick(&["append_child", "prepend_child", "replace"]),
                            "value": format!("<i>r{ri}b{bi}</i>"),
                            "inner_value": opt(rng, 1, 2, format!("r{ri}i{bi}")),
                            "element_tree": ["html", "body"],
                            "css_selector": opt(rng, 1, 3, "p"),
                            "id": opt(rng, 1, 2, format!("bu{ri}{bi}")),
                            "target_hash": opt(rng, 1, 3, format!("bt{ri}{bi}")),
                        })
                    } else {
                        json!({
                            "kind": "text",
                            "action": *rng.pick(&["append_text", "append_text", "prepend_text", "prepend_text", "replace_text"]),
                            "content": if rng.chance(1, 12) { String::new() } else { format!("[r{ri}b{bi}]") },
                            "id": opt(rng, 1, 2, format!("bu{ri}{bi}")),
                            "target_hash": opt(rng, 1, 3, format!("bt{ri}{bi}")),
                        })
                    }
                })
                .collect();
            Value::Array(v)
        }
    };
    r.insert("bf".into(), bf);
    r.insert("log".into(), opt_bool(rng, (2, 5), (1, 2)));
    r.insert("reset".into(), opt_bool(rng, (1, 5), (1, 2)));
    r.insert("stop".into(), opt_bool(rng, (1, 5), (1, 2)));
    r.insert("ru".into(), opt(rng, 1, 2, format!("ru{ri}")));
    r.insert("lu".into(), opt(rng, 1, 2, format!("lu{ri}")));
    let th = *rng.pick(TARGET_HASHES);
    r.insert("th".into(), opt(rng, 1, 2, th));
    r.insert("cu".into(), opt(rng, 1, 2, format!("cu{ri}")));
    Value::Object(r)
}

pub fn distinct_ids(rng: &mut Prng, n: usize) -> Vec<String> {
    let mut pool: Vec<&str> = IDS.to_vec();
    let mut out = Vec::new();
    for _ in 0..n {
        let i = rng.below(pool.len());
        out.push(pool.remove(i).to_string());
    }
    out
}

fn gen_case(rng: &mut Prng) -> Value {
    let n = match rng.below(10) {
        0 => 1,
        1 | 2 => 2,
        3 | 4 => 3,
        5 | 6 => 4,
        7 => 5,
        8 => 6,
        _ => rng.range(7, 8),
    };
    let ov = opt_bool(rng, (1, 2), (1, 2));
    let allow_html = rng.chance(1, 3);
    let via = if rng.chance(1, 3) { "router" } else { "direct" };
    let mut ids = distinct_ids(rng, n);
    // direct mode only: now and then the same rule id twice in the match vector (what D1 produced)
    if via == "direct" && n >= 2 && rng.chance(1, 25) {
        ids[n - 1] = ids[0].clone();
    }
    let mut rules: Vec<Value> = ids.iter().enumerate().map(|(ri, id)| gen_rule(rng, id, ri, !ov.is_null(), allow_html)).collect();
    if via == "router" && rng.chance(1, 2) {
        // tie-free ranks (a random permutation of 0..n, sometimes shifted to the top of the range): the action trace is observed
        let mut perm: Vec<u64> = (0..n as u64).collect();
        for i in (1..n).rev() {
            perm.swap(i, rng.below(i + 1));
        }
        let shift = if rng.chance(1, 4) { 65535 - n as u64 + 1 } else { 0 };
        for (r, k) in rules.iter_mut().zip(perm) {
            r["rank"] = json!(k + shift);
        }
    }
    let ops: Vec<Value> = if rng.chance(1, 2) {
        vec![json!({"op":"status"}), json!({"op":"headers"}), json!({"op":"body"}), json!({"op":"log"})]
    } else {
        (0..rng.range(1, 6))
            .map(|_| match rng.below(5) {
                0 => json!({"op":"status"}),
                1 => json!({"op":"headers"}),
                2 => json!({"op":"body"}),
                3 => json!({"op":"log"}),
                _ => json!({"op":"final","fb": *rng.pick(RESPONSE_CODES)}),
            })
            .collect()
    };
    let mut headers = Vec::new();
    for (name, value) in [("Location", "/old"), ("X-A", "0"), ("x-b", "1"), ("Keep", "k")] {
        if rng.chance(1, 2) {
            headers.push(json!([name, value]));
        }
    }
    json!({
        "rules": rules,
        "ov": ov,
        "skipped": opt(rng, 1, 6, "utm=1"),
        "codes": RESPONSE_CODES,
        "ops": ops,
        "headers": headers,
        "body": if rng.chance(1, 10) { "" } else { "probe" },
        "allow_log": rng.chance(1, 2),
        "ct": if allow_html || rng.chance(1, 2) { json!("text/plain") } else { Value::Null },
        "via": via,
        "mixed": (0..rng.range(2, 8)).map(|_| {
            let c = *rng.pick(RESPONSE_CODES);
            match rng.below(9) {
                0 | 1 => json!({"op":"status","c":c}),
                2 | 3 => json!({"op":"headers","c":c}),
                4 => json!({"op":"body","c":c}),
                5 | 6 => json!({"op":"log","c":c}),
                7 => json!({"op":"status","c":0}),
                _ => json!({"op":"final","c":c,"fb": *rng.pick(RESPONSE_CODES)}),
            }
        }).collect::<Vec<Value>>(),
        "backend": *rng.pick(&[200u64, 200, 404, 301, 410, 500, 302]),
    })
}

/// n-1, n, n+1 of every hinted number, as values (not sizes)
pub fn hint_values(h: &Hints, max: u64) -> Vec<u64> {
    let mut out = Vec::new();
    for n in &h.nums {
        for v in [n.saturating_sub(1), *n, n.saturating_add(1)] {
            if v <= max && !out.contains(&v) {
                out.push(v);
            }
        }
    }
    out
}

/// hinted strings, also upper- / lower-cased, and prefix-related variants (for ids)
pub fn hint_strings(h: &Hints) -> Vec<String> {
    let mut out: Vec<String> = Vec::new();
    for s in &h.strs {
        for v in [s.clone(), s.to_uppercase(), s.to_lowercase()] {
            if !out.contains(&v) {
                out.push(v);
            }
        }
    }
    out
}

const ID_PATTERN: &str = "abcdefghijklmnopqrstuvwxyz0123456789";

fn id_pat(j: usize) -> String {
    ID_PATTERN.chars().cycle().take(j).collect()
}

/// Tie groups (meant for ONE rank) of ids around a length / prefix length `j`: a common prefix of `j` bytes with the
/// difference right after it, the prefix against itself + NUL (what zero padding to a fixed width would confuse), a
/// chain of ids of exact length j-1 / j / j+1 each a prefix of the next, and ids that differ at byte index `j` only.
pub fn prefix_tie_groups(j: usize) -> Vec<Vec<String>> {
    let p = id_pat(j);
    let mut chain = vec![p.clone(), id_pat(j + 1)];
    if j >= 2 {
        chain.insert(0, id_pat(j - 1));
    }
    let base = id_pat(j + 3);
    let at = |c: char| -> String { base.chars().enumerate().map(|(i, b)| if i == j { c } else { b }).collect() };
    vec![vec![format!("{p}a"), format!("{p}b")], vec![p.clone(), format!("{p}\u{0}")], chain, vec![at('!'), at('~'), base.clone()]]
}

/// Fixed family, part of every run: UUID-shaped ids (36 chars, what real rule ids look like) that share their first
/// 8 (9 with the dash) / 16 / 24 / 35 characters, and ids where one is a strict prefix of the other.
pub fn uuid_tie_groups() -> Vec<Vec<String>> {
    const U: &str = "3f2b8c1e-7a4d-4e9b-a1c6-5d8e9f0a1b2c";
    let mut out = Vec::new();
    for s in [8usize, 16, 24, 35] {
        let at = if U.as_bytes()[s] == b'-' { s + 1 } else { s };
        let lo = format!("{}0{}", &U[..at], &U[at + 1..]);
        // the higher one also ends differently, so that a comparison of the tails alone would order the other way round
        let hi = if at < 35 { format!("{}f{}0", &U[..at], &U[at + 1..35]) } else { format!("{}f", &U[..at]) };
        out.push(vec![U.to_string(), lo, hi]);
    }
    out.push(vec![U[..16].to_string(), U.to_string(), format!("{U}-2")]);
    out
}

/// A rule whose position in the application order shows in every observer (status, target, added header, appended text, log).
pub fn tie_rule(id: &str, ri: usize) -> Value {
    json!({
        "id": id, "rank": 1, "status_code": 301 + ri as u64, "target": format!("/t{ri}"), "codes": null, "excl": null, "sampling": null,
        "hf": [{"action": "add", "header": "X-T", "value": format!("v{ri}"), "id": format!("hu{ri}0"), "target_hash": null}],
        "bf": [{"kind": "text", "action": "append_text", "content": format!("[{ri}]"), "id": null, "target_hash": null}],
        "log": ri % 2 == 0, "reset": null, "stop": null, "ru": format!("ru{ri}"), "lu": format!("lu{ri}"), "th": null, "cu": null,
    })
}

fn all_perms(n: usize) -> Vec<Vec<usize>> {
    if n == 0 {
        return vec![vec![]];
    }
    let mut out = Vec::new();
    for p in all_perms(n - 1) {
        for pos in 0..n {
            let mut q = p.clone();
            q.insert(pos, n - 1);
            out.push(q);
        }
    }
    out
}

/// Every group as a match vector in each of its orders (direct), and once through a real router.
pub fn tie_cases(rng: &mut Prng, groups: &[Vec<String>]) -> Vec<Value> {
    let mut out = Vec::new();
    for g in groups {
        let mut orders: Vec<(Vec<usize>, &str)> = all_perms(g.len()).into_iter().map(|p| (p, "direct")).collect();
        orders.push(((0..g.len()).collect(), "router"));
        for (p, via) in orders {
            let mut case = gen_case(rng);
            case["rules"] = Value::Array(p.iter().map(|&i| tie_rule(&g[i], i)).collect());
            case["via"] = json!(via);
            case["ops"] = json!([{"op":"status"}, {"op":"headers"}, {"op":"body"}, {"op":"log"}]);
            out.push(case);
        }
    }
    out
}

/// the prefix lengths to probe for the hinted numbers (n-1, n, n+1 each, at most 300, at most 30 of them)
pub fn hint_prefix_lengths(h: &Hints) -> Vec<usize> {
    h.sizes(300).into_iter().take(30).collect()
}

/// Hint-directed action cases: every hinted number as status code / listed response code / probed response code /
/// rank / sampling rate / fallback code, hinted sizes as numbers of rules, filters, listed codes and id lengths;
/// every hinted string as rule id (with prefix-related neighbours), header name / value / action, body content,
/// target, unit ids, target hashes, skipped query, response header.
pub fn hint_cases(rng: &mut Prng, h: &Hints) -> Vec<Value> {
    let mut out = Vec::new();
    let canonical_ops = || vec![json!({"op":"status"}), json!({"op":"headers"}), json!({"op":"body"}), json!({"op":"log"})];
    for v in hint_values(h, u32::MAX as u64) {
        for variant in 0..4 {
            let mut case = gen_case(rng);
            let n = case["rules"].as_array().unwrap().len();
            let k = rng.below(n);
            {
                let r = &mut case["rules"][k];
                match variant {
                    0 => {
                        // status code + probed code + listed code
                        r["status_code"] = json!(v);
                        r["codes"] = json!([v]);
                        r["sampling"] = Value::Null;
                    }
                    1 => {
                        r["codes"] = json!([404, v]);
                        r["excl"] = json!(true);
                        r["status_code"] = json!(301);
                    }
                    2 => {
                        r["rank"] = json!(v);
                        r["sampling"] = json!(v);
                    }
                    _ => {
                        r["sampling"] = json!(v);
                        r["status_code"] = json!(302);
                    }
                }
            }
            if variant >= 2 && case["ov"].is_null() && v > 0 && v < 100 {
                case["ov"] = json!(rng.chance(1, 2)); // a rate strictly between 0 and 100 needs the override to be deterministic
            }
            let mut codes: Vec<Value> = RESPONSE_CODES.iter().map(|c| json!(c)).collect();
            if v <= 65535 {
                codes.push(json!(v));
            }
            case["codes"] = Value::Array(codes);
            let mut ops = canonical_ops();
            if v <= 65535 {
                ops.push(json!({"op":"final","fb": v}));
            }
            case["ops"] = Value::Array(ops);
            out.push(case);
        }
    }
    for k in h.sizes(12) {
        // k rules (the harness accepts any number), k header / body filters, k listed codes
        let ids: Vec<String> = (0..k).map(|i| format!("h{i:02}")).collect();
        let rules: Vec<Value> = ids.iter().enumerate().map(|(ri, id)| gen_rule(rng, id, ri, false, false)).collect();
        let mut case = gen_case(rng);
        case["rules"] = Value::Array(rules);
        case["via"] = json!("direct");
        case["ops"] = Value::Array(canonical_ops());
        out.push(case);
        let mut case = gen_case(rng);
        {
            let r = &mut case["rules"][0];
            r["hf"] = Value::Array((0..k).map(|i| json!({"action": "add", "header": "X-H", "value": format!("v{i}"), "id": format!("hu{i}"), "target_hash": "th-a"})).collect());
            r["bf"] = Value::Array((0..k).map(|i| json!({"kind": "text", "action": if i % 2 == 0 { "append_text" } else { "prepend_text" }, "content": format!("[{i}]"), "id": format!("bu{i}")})).collect());
            r["codes"] = Value::Array((0..k).map(|i| json!(400 + i as u64)).collect());
        }
        out.push(case);
    }
    for k in h.sizes(300) {
        // id lengths, with prefix-related neighbours
        let base = "a".repeat(k);
        let ids = vec![base.clone(), format!("{base}a"), base[..k.saturating_sub(1)].to_string(), format!("{}b", &base[..k.saturating_sub(1)])];
        let mut seen = Vec::new();
        let rules: Vec<Value> = ids.iter().filter(|id| if seen.contains(*id) { false } else { seen.push((*id).clone()); true }).enumerate().map(|(ri, id)| {
            let mut r = gen_rule(rng, id, ri, false, false);
            r["rank"] = json!(1);
            r
        }).collect();
        let mut case = gen_case(rng);
        case["rules"] = Value::Array(rules);
        case["via"] = json!("direct");
        out.push(case);
    }
    for j in hint_prefix_lengths(h) {
        // equal-rank groups whose ids agree on / differ at the hinted length: only a full bytewise comparison orders them
        out.extend(tie_cases(rng, &prefix_tie_groups(j)));
    }
    for s in hint_strings(h) {
        // rule ids: the string, prefix-related neighbours, all with the same rank so that only the id decides
        let mut ids = vec![s.clone(), format!("{s}0"), format!("{s}-1"), s.chars().take(s.chars().count().saturating_sub(1)).collect::<String>(), format!("a{s}")];
        ids.dedup();
        let mut seen: Vec<String> = Vec::new();
        ids.retain(|id| if seen.contains(id) { false } else { seen.push(id.clone()); true });
        for via in ["direct", "router"] {
            let rules: Vec<Value> = ids.iter().enumerate().map(|(ri, id)| {
                let mut r = gen_rule(rng, id, ri, false, false);
                r["rank"] = json!(1);
                r
            }).collect();
            let mut case = gen_case(rng);
            case["rules"] = Value::Array(rules);
            case["via"] = json!(via);
            case["ops"] = Value::Array(canonical_ops());
            out.push(case);
        }
        // free text everywhere else
        let mut case = gen_case(rng);
        {
            let r = &mut case["rules"][0];
            let hname = if s.is_ascii() && !s.is_empty() && !["content-type", "content-encoding"].contains(&s.to_lowercase().as_str()) { s.clone() } else { "X-H".to_string() };
            r["hf"] = json!([
                {"action": s, "header": "X-A", "value": "v", "id": s, "target_hash": s},
                {"action": "add", "header": hname, "value": s, "id": format!("{s}2"), "target_hash": s},
                {"action": "override", "header": hname, "value": format!("{s}{s}"), "id": s, "target_hash": s},
                {"action": "replace", "header": hname.to_uppercase(), "value": s, "id": "hu", "target_hash": "status_code"},
            ]);
            r["bf"] = json!([{"kind": "text", "action": "append_text", "content": s, "id": s, "target_hash": s}, {"kind": "text", "action": "prepend_text", "content": s, "id": format!("{s}b")}]);
            r["target"] = json!(s);
            r["ru"] = json!(s);
            r["lu"] = json!(s);
            r["cu"] = json!(s);
            r["th"] = json!(s);
            r["status_code"] = json!(301);
            r["log"] = json!(true);
            r["reset"] = json!(true);
            r["sampling"] = Value::Null;
            r["codes"] = Value::Null;
        }
        case["skipped"] = json!(s);
        if s.is_ascii() && !s.is_empty() && !["content-type", "content-encoding"].contains(&s.to_lowercase().as_str()) {
            case["headers"] = json!([[s, "0"], ["X-A", s], [s.to_uppercase(), s]]);
        } else {
            case["headers"] = json!([["X-A", s]]);
        }
        case["body"] = json!(s);
        case["ops"] = Value::Array(canonical_ops());
        out.push(case);
    }
    out
}

/// thorough: every sequence of <= 3 effects from a 24-effect pool; ids are assigned by position so that
/// the sequence IS the application order (same rank, ids descending), the match vector is given reversed.
fn exhaustive_pool() -> Vec<Value> {
    let mut pool = Vec::new();
    let mut i = 0;
    let conds: [(Value, Value); 3] = [(Value::Null, Value::Null), (json!([404]), Value::Null), (json!([404]), json!(true))];
    for (codes, excl) in conds.iter() {
        for sc in [Value::Null, json!(301 + i as u64 % 2)] {
            for flags in 0..4 {
                let (reset, stop) = (flags & 1 == 1, flags & 2 == 2);
                pool.push(json!({
                    "status_code": sc.clone(), "codes": codes.clone(), "excl": excl.clone(),
                    "hf": [{"action":"add","header":"X-P","value":format!("p{i}")}],
                    "bf": [{"kind":"text","action":"append_text","content":format!("[p{i}]")}],
                    "log": if i % 3 == 0 { json!(i % 2 == 0) } else { Value::Null },
                    "reset": reset, "stop": stop,
                }));
                i += 1;
            }
        }
    }
    pool
}

pub fn gen(args: &Args, emit: &mut dyn FnMut(Value)) {
    let mut rng = Prng::new(args.seed);
    if args.tier == "thorough" {
        let pool = exhaustive_pool();
        let n = pool.len();
        let mk = |seq: &[usize]| {
            let ids = ["c", "b", "a"];
            let mut rules: Vec<Value> = seq
                .iter()
                .enumerate()
                .map(|(pos, &e)| {
                    let mut r = pool[e].as_object().unwrap().clone();
                    r.insert("id".into(), json!(ids[pos]));
                    r.insert("rank".into(), json!(1));
                    Value::Object(r)
                })
                .collect();
            rules.reverse();
            json!({"rules": rules, "ov": null, "skipped": null, "codes": [0, 404, 200],
                   "ops": [{"op":"status"},{"op":"headers"},{"op":"body"},{"op":"log"}],
                   "headers": [], "body": "probe", "allow_log": true, "ct": null, "via": "direct", "exh": true})
        };
        for a in 0..n {
            emit(mk(&[a]));
            for b in 0..n {
                emit(mk(&[a, b]));
                for c in 0..n {
                    emit(mk(&[a, b, c]));
                }
            }
        }
    }
    // diff-directed hints first (empty on the unchanged tree)
    let h = hints();
    if !h.is_empty() {
        let mut hr = Prng::new(args.seed ^ 0x4849_4e54);
        for c in hint_cases(&mut hr, &h) {
            emit(c);
        }
        for c in into_route::hint_cases(&mut hr, &h) {
            emit(c);
        }
    }
    // fixed family in every run: realistic (UUID-shaped) ids with long shared prefixes under one rank
    {
        let mut ur = Prng::new(args.seed ^ 0x7575_6964);
        for c in tie_cases(&mut ur, &uuid_tie_groups()) {
            emit(c);
        }
    }
    for _ in 0..args.n {
        emit(gen_case(&mut rng));
    }
    // second case kind: `Rule::into_route` against Model/IntoRoute.lean (package W3d)
    let mut rng2 = Prng::new(args.seed ^ 0x1d70_0e5e);
    for _ in 0..(args.n / 3).max(1) {
        emit(into_route::gen_case(&mut rng2));
    }
}

fn get<'a>(v: &'a Value, k: &str) -> &'a Value {
    v.get(k).unwrap_or(&Value::Null)
}

/// The `api::Rule` JSON of an abstract rule (trivially matching source `/x`).
pub fn rule_json(r: &Value) -> Result<Value, String> {
    let id = r.get("id").and_then(|x| x.as_str()).ok_or("rule id")?;
    let rank = r.get("rank").and_then(|x| x.as_u64()).ok_or("rule rank")?;
    let bf = match get(r, "bf") {
        Value::Null => Value::Null,
        Value::Array(a) => {
            let mut out = Vec::new();
            for f in a {
                match f.get("kind").and_then(|k| k.as_str()) {
                    Some("text") => out.push(json!({"action": get(f, "action"), "content": get(f, "content"), "id": get(f, "id"), "target_hash": get(f, "target_hash")})),
                    Some("html") => out.push(json!({"action": get(f, "action"), "value": get(f, "value"), "inner_value": get(f, "inner_value"),
                        "element_tree": get(f, "element_tree"), "css_selector": get(f, "css_selector"), "id": get(f, "id"), "target_hash": get(f, "target_hash")})),
                    _ => return Err("body filter kind".into()),
                }
            }
            Value::Array(out)
        }
        _ => return Err("bf".into()),
    };
    let hf = match get(r, "hf") {
        Value::Null => Value::Null,
        Value::Array(a) => Value::Array(
            a.iter()
                .map(|f| json!({"action": get(f, "action"), "header": get(f, "header"), "value": get(f, "value"), "id": get(f, "id"), "target_hash": get(f, "target_hash")}))
                .collect(),
        ),
        _ => return Err("hf".into()),
    };
    let mut out = json!({
        "id": id,
        "rank": rank,
        "source": {"path": "/x", "response_status_codes": get(r, "codes"), "exclude_response_status_codes": get(r, "excl"), "sampling": get(r, "sampling"),
                   "ips": match get(r, "ips") { Value::Array(a) => Value::Array(a.iter().map(|x| json!({"in_range": x})).collect()), _ => Value::Null }},
        "target": get(r, "target"),
        "status_code": get(r, "status_code"),
        "header_filters": hf,
        "body_filters": bf,
        "log_override": get(r, "log"),
        "reset": get(r, "reset"),
        "stop": get(r, "stop"),
        "redirect_unit_id": get(r, "ru"),
        "configuration_log_unit_id": get(r, "lu"),
        "configuration_reset_unit_id": get(r, "cu"),
        "target_hash": get(r, "th"),
    });
    // optional triggers (c11: the same rule set spread over scheme / host / method / header / regex buckets)
    if let Some(src) = get(r, "src").as_object() {
        for (k, v) in src {
            if k == "markers" {
                out["markers"] = v.clone();
            } else {
                out["source"][k] = v.clone();
            }
        }
    }
    Ok(out)
}

pub fn build_rules(case: &Value) -> Result<Vec<Rule>, String> {
    let arr = case.get("rules").and_then(|r| r.as_array()).ok_or("rules")?;
    let mut rules = Vec::new();
    for r in arr {
        let j = rule_json(r)?;
        // an HTML filter JSON that also parses as a text filter (untagged enum) would change kind: reject
        if let Some(bfs) = get(r, "bf").as_array() {
            for f in bfs {
                let kind = f.get("kind").and_then(|k| k.as_str());
                let text_action = matches!(get(f, "action").as_str(), Some("append_text" | "prepend_text" | "replace_text"));
                if kind == Some("html") && text_action {
                    return Err("html filter with a text action name".into());
                }
                if kind == Some("text") && !text_action {
                    return Err("text filter with an unknown action".into());
                }
            }
        }
        let rule: Rule = serde_json::from_value(j).map_err(|e| format!("rule json: {e}"))?;
        rules.push(rule);
    }
    Ok(rules)
}

/// The outcome of the sampling test must not depend on the random draw.
pub fn deterministic(case: &Value, rules: &[Rule]) -> bool {
    let ov = get(case, "ov").as_bool();
    ov.is_some() || rules.iter().all(|r| match r.source.sampling { None => true, Some(s) => s == 0 || s >= 100 })
}

pub fn request(case: &Value, config: Option<&RouterConfig>) -> Result<Request, String> {
    let ov = match get(case, "ov") {
        Value::Null => None,
        Value::Bool(b) => Some(*b),
        _ => return Err("ov".into()),
    };
    let mut request = match config {
        None => Request::new(PathAndQueryWithSkipped::from_static("/x"), "/x".to_string(), None, None, None, None, ov),
        Some(c) => Request::from_config(c, "/x".to_string(), None, None, None, None, ov),
    };
    match get(case, "skipped") {
        Value::Null => {}
        Value::String(s) => request.path_and_query_skipped.skipped_query_params = Some(s.clone()),
        _ => return Err("skipped".into()),
    }
    match get(case, "ip") {
        Value::Null => {}
        Value::String(s) => request.remote_addr = Some(s.parse().map_err(|_| "ip".to_string())?),
        _ => return Err("ip".into()),
    }
    Ok(request)
}

/// Routes of the match vector, in case order ("direct") or as the real router returns them ("router").
pub fn routes_of(case: &Value, rules: Vec<Rule>) -> Result<(Vec<Arc<Route<Rule>>>, Request), String> {
    routes_and_router(case, rules).map(|(routes, request, _)| (routes, request))
}

/// Same, and the router itself in "router" mode (for the action trace).
pub fn routes_and_router(case: &Value, rules: Vec<Rule>) -> Result<(Vec<Arc<Route<Rule>>>, Request, Option<Router<Rule>>), String> {
    let via = s(case, "via").unwrap_or_else(|| "direct".to_string());
    let config = RouterConfig::default();
    match via.as_str() {
        "direct" => {
            let request = request(case, None)?;
            Ok((rules.into_iter().map(|r| Arc::new(r.into_route(&config))).collect(), request, None))
        }
        "router" => {
            let mut ids: Vec<&str> = rules.iter().map(|r| r.id.as_str()).collect();
            ids.sort();
            ids.dedup();
            if ids.len() != rules.len() {
                return Err("router mode needs distinct ids".into());
            }
            let n = rules.len();
            let mut router = Router::<Rule>::from_config(config.clone());
            for r in rules {
                router.insert(r);
            }
            let request = request(case, Some(&config))?;
            let routes = router.match_request(&request);
            if routes.len() < n {
                return Err(format!("router matched {} of {} rules (the case is about matched rules only)", routes.len(), n));
            }
            Ok((routes, request, Some(router)))
        }
        _ => Err("via".into()),
    }
}

/// Canonical content of a `UnitTrace`: the two ordered sets as they are, what comes out of hash maps sorted.
fn canon_trace(t: &UnitTrace) -> Value {
    let v = serde_json::to_value(t).unwrap();
    let mut seen: Vec<String> = v["unit_ids_seen"].as_array().unwrap().iter().map(|x| x.as_str().unwrap().to_string()).collect();
    seen.sort();
    let mut values: Vec<(String, String)> = v["value_computed_by_units"].as_object().unwrap().iter().map(|(k, x)| (k.clone(), x.as_str().unwrap().to_string())).collect();
    values.sort();
    json!({"rules": v["rule_ids_applied"], "applied": v["unit_ids_applied"], "seen": seen, "values": values.iter().map(|(k, x)| json!([k, x])).collect::<Vec<Value>>()})
}

fn u16_of(v: &Value) -> Option<u16> {
    v.as_u64().and_then(|x| u16::try_from(x).ok())
}

fn run(case: &Value) -> Obs {
    if case.get("kind").and_then(|k| k.as_str()) == Some("into_route") {
        return into_route::run(case);
    }
    let rules = match build_rules(case) {
        Ok(r) => r,
        Err(e) => return Obs::invalid(&e),
    };
    if !deterministic(case, &rules) {
        return Obs::invalid("outcome depends on the sampling draw");
    }
    let has_html = rules.iter().any(|r| r.body_filters.as_ref().map_or(false, |b| b.iter().any(|f| matches!(f, redirectionio::api::BodyFilter::HTML(_)))));
    let ct = match get(case, "ct") {
        Value::Null => None,
        Value::String(s) => Some(s.clone()),
        _ => return Obs::invalid("ct"),
    };
    if let Some(ct) = &ct {
        if ct.to_lowercase().contains("text/html") {
            return Obs::invalid("ct must not be html");
        }
    }
    if has_html && ct.is_none() {
        return Obs::invalid("html body filters need a non-html content type in this probe");
    }
    let mut headers: Vec<Header> = Vec::new();
    match case.get("headers").and_then(|h| h.as_array()) {
        Some(a) => {
            for h in a {
                match h.as_array().map(|p| p.as_slice()) {
                    Some([Value::String(n), Value::String(v)]) => {
                        let l = n.to_lowercase();
                        if l == "content-type" || l == "content-encoding" {
                            return Obs::invalid("reserved header name");
                        }
                        // keep header names where ASCII lower-casing (model) = Unicode lower-casing (code)
                        if !n.is_ascii() {
                            return Obs::invalid("non-ascii header name");
                        }
                        headers.push(Header { name: n.clone(), value: v.clone() })
                    }
                    _ => return Obs::invalid("header pair"),
                }
            }
        }
        None => return Obs::invalid("headers"),
    }
    for r in &rules {
        if let Some(hf) = &r.header_filters {
            if hf.iter().any(|f| !f.header.is_ascii()) {
                return Obs::invalid("non-ascii filter header name");
            }
        }
    }
    let body = match s(case, "body") {
        Some(b) => b,
        None => return Obs::invalid("body"),
    };
    let allow_log = match get(case, "allow_log") {
        Value::Bool(b) => *b,
        _ => return Obs::invalid("allow_log"),
    };
    let codes: Vec<u16> = match case.get("codes").and_then(|c| c.as_array()) {
        Some(a) => {
            let mut v = Vec::new();
            for c in a {
                match u16_of(c) {
                    Some(c) => v.push(c),
                    None => return Obs::invalid("code"),
                }
            }
            v
        }
        None => return Obs::invalid("codes"),
    };
    enum Op {
        Status,
        Headers,
        Body,
        Log,
        Final(u16),
    }
    let ops: Vec<Op> = match case.get("ops").and_then(|c| c.as_array()) {
        Some(a) => {
            let mut v = Vec::new();
            for o in a {
                v.push(match o.get("op").and_then(|x| x.as_str()) {
                    Some("status") => Op::Status,
                    Some("headers") => Op::Headers,
                    Some("body") => Op::Body,
                    Some("log") => Op::Log,
                    Some("final") => match o.get("fb").and_then(u16_of) {
                        Some(fb) => Op::Final(fb),
                        None => return Obs::invalid("fb"),
                    },
                    _ => return Obs::invalid("op"),
                });
            }
            v
        }
        None => return Obs::invalid("ops"),
    };
    let n_rules = rules.len();
    let flags: Vec<String> = {
        let mut t = Vec::new();
        if rules.iter().any(|r| r.stop == Some(true)) {
            t.push("stop".to_string());
        }
        if rules.iter().any(|r| r.reset == Some(true)) {
            t.push("reset".to_string());
        }
        if rules.iter().any(|r| r.source.sampling.is_some()) {
            t.push("sampling".to_string());
        }
        if rules.iter().any(|r| r.source.exclude_response_status_codes.is_some()) {
            t.push("exclude".to_string());
        }
        let mut ranks: Vec<u16> = rules.iter().map(|r| r.rank).collect();
        ranks.sort();
        ranks.dedup();
        if ranks.len() < n_rules {
            t.push("rank-tie".to_string());
        }
        let mut ids: Vec<&str> = rules.iter().map(|r| r.id.as_str()).collect();
        ids.sort();
        ids.dedup();
        if ids.len() < n_rules {
            t.push("dup-ids".to_string());
        }
        t
    };
    let distinct_ranks = {
        let mut ranks: Vec<u16> = rules.iter().map(|r| r.rank).collect();
        ranks.sort();
        ranks.dedup();
        ranks.len() == n_rules
    };
    let (routes, request, router) = match routes_and_router(case, rules) {
        Ok(x) => x,
        Err(e) => return Obs::invalid(&e),
    };
    // the action trace (explain): TraceAction::from_trace_rules on the real traces of the router.  Observed when
    // the ranks are pairwise distinct (otherwise its order among ties is the traversal order of the trace).
    let trace_obs = match (&router, distinct_ranks) {
        (Some(router), true) => {
            let traces = router.trace_request(&request);
            let steps = TraceAction::from_trace_rules(&traces, &request);
            let v = serde_json::to_value(&steps).unwrap();
            Value::Array(v.as_array().unwrap().iter().map(|t| json!({"id": t["rule"]["id"], "action": t["action"]})).collect())
        }
        _ => Value::Null,
    };
    let dup_match = {
        let mut ids: Vec<&str> = routes.iter().map(|r| r.id()).collect();
        ids.sort();
        let k = ids.len();
        ids.dedup();
        ids.len() < k && !flags.iter().any(|f| f == "dup-ids")
    };
    let action = Action::from_routes_rule(routes.clone(), &request, None);
    let action_json = serde_json::to_value(&action).unwrap();
    // the same with a real UnitTrace (package W3e): results must not change, the trace content is observed
    let mut base_trace = UnitTrace::default();
    let action_t = Action::from_routes_rule(routes, &request, Some(&mut base_trace));
    let mut interference: Option<String> = None;
    if serde_json::to_value(&action_t).unwrap() != action_json {
        interference = Some("from_routes_rule computes another action when given a unit trace".to_string());
    }
    let mut resp_headers = headers.clone();
    if let Some(ct) = &ct {
        resp_headers.push(Header { name: "Content-Type".to_string(), value: ct.clone() });
    }
    let ids_probe: Vec<String> = {
        let mut v: Vec<String> = case.get("rules").and_then(|r| r.as_array()).map(|a| a.iter().filter_map(|r| s(r, "id")).collect()).unwrap_or_default();
        v.push("nope".to_string());
        v
    };
    let mut per_code = Vec::new();
    for &c in &codes {
        let mut a = action.clone();
        let mut out = Vec::new();
        for op in &ops {
            let (name, r): (&str, Value) = match op {
                Op::Status => ("status", json!(a.get_status_code(c, None))),
                Op::Headers => {
                    let hs = a.filter_headers(headers.clone(), c, true, None);
                    ("headers", Value::Array(hs.iter().map(|h| json!([h.name, h.value])).collect()))
                }
                Op::Body => match a.create_filter_body(c, &resp_headers) {
                    None => ("body", Value::Null),
                    Some(mut fb) => {
                        let kinds = fb.verif_chain_kinds();
                        let mut o = fb.filter(body.clone().into_bytes(), None);
                        o.extend(fb.end(None));
                        ("body", json!({"kinds": kinds, "out": String::from_utf8_lossy(&o).to_string()}))
                    }
                },
                Op::Log => ("log", json!(a.should_log_request(allow_log, c, None))),
                Op::Final(fb) => {
                    let mut trace = UnitTrace::default();
                    let (s1, s2) = a.get_final_status_code_with_fallback(c, *fb, &mut trace);
                    ("final", json!([s1, s2]))
                }
            };
            let ids: Vec<String> = a.get_applied_rule_ids().iter().cloned().collect();
            out.push(json!({"op": name, "r": r, "ids": ids}));
        }
        // traced run of the same observer sequence
        let mut at = action_t.clone();
        let mut tr = base_trace.clone();
        let mut out_t = Vec::new();
        for op in &ops {
            let (name, r): (&str, Value) = match op {
                Op::Status => ("status", json!(at.get_status_code(c, Some(&mut tr)))),
                Op::Headers => {
                    let hs = at.filter_headers(headers.clone(), c, true, Some(&mut tr));
                    ("headers", Value::Array(hs.iter().map(|h| json!([h.name, h.value])).collect()))
                }
                Op::Body => match at.create_filter_body(c, &resp_headers) {
                    None => ("body", Value::Null),
                    Some(mut fb) => {
                        let kinds = fb.verif_chain_kinds();
                        let mut o = fb.filter(body.clone().into_bytes(), Some(&mut tr));
                        o.extend(fb.end(Some(&mut tr)));
                        ("body", json!({"kinds": kinds, "out": String::from_utf8_lossy(&o).to_string()}))
                    }
                },
                Op::Log => ("log", json!(at.should_log_request(allow_log, c, Some(&mut tr)))),
                Op::Final(fb) => {
                    let (s1, s2) = at.get_final_status_code_with_fallback(c, *fb, &mut tr);
                    ("final", json!([s1, s2]))
                }
            };
            let ids: Vec<String> = at.get_applied_rule_ids().iter().cloned().collect();
            out_t.push(json!({"op": name, "r": r, "ids": ids}));
        }
        // `final` always runs with a trace (its signature requires one): compare the others
        if out_t != out && interference.is_none() {
            interference = Some(format!("code {c}: observers return {} with a unit trace, {} without", Value::Array(out_t.clone()), Value::Array(out.clone())));
        }
        let pre = canon_trace(&tr);
        tr.squash_with_target_unit_traces();
        let post = canon_trace(&tr);
        let diff: Vec<String> = tr.diff(DIFF_PROBE.iter().map(|s| s.to_string()).collect()).into_iter().collect();
        let contains: Vec<bool> = ids_probe.iter().map(|id| tr.rule_ids_contains(id)).collect();
        per_code.push(json!({"c": c, "ops": out, "ut": {"pre": pre, "post": post, "diff": diff, "contains": contains}}));
    }
    // ONE action, a response code per call (review A, C05-2): a generated mixed sequence, and the proxy order
    // get_status_code(0) [; get_status_code(backend)] ; filter_headers ; create_filter_body ; should_log_request(final)
    let mut run_one = |a: &mut Action, name: &str, c: u16, fb: u16| -> Value {
        let r: Value = match name {
            "status" => json!(a.get_status_code(c, None)),
            "headers" => {
                let hs = a.filter_headers(headers.clone(), c, true, None);
                Value::Array(hs.iter().map(|h| json!([h.name, h.value])).collect())
            }
            "body" => match a.create_filter_body(c, &resp_headers) {
                None => Value::Null,
                Some(mut f) => {
                    let kinds = f.verif_chain_kinds();
                    let mut o = f.filter(body.clone().into_bytes(), None);
                    o.extend(f.end(None));
                    json!({"kinds": kinds, "out": String::from_utf8_lossy(&o).to_string()})
                }
            },
            "log" => json!(a.should_log_request(allow_log, c, None)),
            _ => {
                let mut trace = UnitTrace::default();
                let (s1, s2) = a.get_final_status_code_with_fallback(c, fb, &mut trace);
                json!([s1, s2])
            }
        };
        let ids: Vec<String> = a.get_applied_rule_ids().iter().cloned().collect();
        json!({"op": name, "c": c, "r": r, "ids": ids})
    };
    let mut mixed_obs = Vec::new();
    {
        let mut a = action.clone();
        for o in case.get("mixed").and_then(|m| m.as_array()).map(|a| a.as_slice()).unwrap_or(&[]) {
            let name = match o.get("op").and_then(|x| x.as_str()) {
                Some(n @ ("status" | "headers" | "body" | "log" | "final")) => n,
                _ => return Obs::invalid("mixed op"),
            };
            let c = match o.get("c").and_then(u16_of) {
                Some(c) => c,
                None => return Obs::invalid("mixed code"),
            };
            let fb = if name == "final" {
                match o.get("fb").and_then(u16_of) {
                    Some(f) => f,
                    None => return Obs::invalid("mixed fb"),
                }
            } else {
                0
            };
            mixed_obs.push(run_one(&mut a, name, c, fb));
        }
    }
    let mut proxy_obs = Vec::new();
    if let Some(backend) = case.get("backend") {
        let backend = match u16_of(backend) {
            Some(b) => b,
            None => return Obs::invalid("backend"),
        };
        let mut a = action.clone();
        let first = run_one(&mut a, "status", 0, 0);
        let s0 = first["r"].as_u64().unwrap() as u16;
        proxy_obs.push(first);
        let (final_code, backend2) = if s0 != 0 {
            (s0, s0)
        } else {
            let second = run_one(&mut a, "status", backend, 0);
            let s1 = second["r"].as_u64().unwrap() as u16;
            proxy_obs.push(second);
            (s1, backend)
        };
        proxy_obs.push(run_one(&mut a, "headers", backend2, 0));
        proxy_obs.push(run_one(&mut a, "body", backend2, 0));
        proxy_obs.push(run_one(&mut a, "log", final_code, 0));
    }
    let traced = !trace_obs.is_null();
    let mut o = Obs::new(json!({"action": action_json, "codes": per_code, "trace": trace_obs, "ut0": canon_trace(&base_trace), "mixed": mixed_obs, "proxy": proxy_obs})).trivial(n_rules < 2);
    if traced {
        o.tags.push("action-trace".to_string());
    }
    o.tags.push(format!("rules:{n_rules}"));
    o.tags.push(format!("via:{}", s(case, "via").unwrap_or_else(|| "direct".to_string())));
    o.tags.extend(flags);
    if let Some(why) = interference {
        return o.fail(why, "trace-interference");
    }
    if dup_match {
        return o.fail("the router returned a matched rule more than once: its effects are applied twice", "dup-match");
    }
    o
}

/// `impl IntoRoute<Rule> for Rule` observed structurally through the accessors of `Route`.
/// case: {"kind":"into_route","cfg":{"ihc","ihdc","ipc","any"},"src":{"id","rank","scheme"?,"host"?,"path","query"?,"markers":"dl",
///        "ips":[{"neg","range"}]?,"methods"?,"exclude"?,"headers":[{"name","kind","value"?}]?,"datetime":[[s?,e?]]?,"time":[[s?,e?]]?,"weekdays":[str]?}}
/// obs:  {"id","priority","scheme","methods","exclude","host":null|{"static":s}|{"dyn":regex},"path":…,
///        "headers":[[name,kind,payload]],"ips":null|[[neg,v6,base,bits]],"datetime":null|[[start,end]] (epoch s),
///        "time":null|[[start,end]] (s since midnight),"weekdays":null|[n] (from Monday)}
pub mod into_route {
    use super::*;
    use chrono::{Datelike, Timelike};
    use redirectionio::marker::StaticOrDynamic;
    use redirectionio::router::{RouteHeaderKind, RouteIp};

    const PATHS: &[&str] = &["/", "/a", "/A/B", "/a b", "/a+b", "/a+@d", "/caf\u{e9}", "/a/@d", "/a/@d/@l", "/x_y.z", "/a\"b", "/a<b>", "/@q/@d", "/a%20b", "/A/@x"];
    const QUERIES: &[&str] = &["", "b=1&a=2", "a=%2B&b=a+b", "k=1&k=2", "\u{e9}=1", "a", "=", "a=1&&b", "B=1&a=2", "x=@d"];
    const HOSTS: &[&str] = &["", "a.com", "A.COM", "@l.com", "shop-@d.a.com", "www.a.com", "@q.com"];
    const RANGES: &[&str] = &["10.0.0.0/8", "10.1.0.0/16", "10.1.2.3", "10.0.0.1/8", "not-a-cidr", "", "300.1.1.1/8", "10.0.0.0/33", "192.168.0.0/24", "0.0.0.0/0", "10.0.0.0/08x", "1.2.3/8"];
    const INSTANTS: &[&str] = &["2020-01-01T00:00:00Z", "2020-01-01T02:00:00+02:00", "2020-06-15T12:30:45-05:00", "2019-12-31T23:59:59Z", "garbage", "", "2020-13-01T00:00:00Z", "2020-02-30T00:00:00Z", "2024-02-29T00:00:00Z", "2020-01-01", "1970-01-01T00:00:00Z"];
    const TIMES: &[&str] = &["00:00:00", "14:30:00", "23:59:59", "24:00:00", "12:60:00", "noon", "", "07:05:09"];
    const DAYS: &[&str] = &["Monday", "mon", "TUE", "Wed", "thursday", "Fri", "SAT", "sun", "Funday", "", "Mo", "Sunday"];
    const KINDS: &[&str] = &["is_defined", "is_not_defined", "is_equals", "is_not_equal_to", "contains", "does_not_contain", "ends_with", "starts_with", "match_regex", "bogus", "IS_DEFINED", ""];

    fn opt_s(rng: &mut Prng, pool: &[&str], num: usize, den: usize) -> Value {
        if rng.chance(num, den) { json!(*rng.pick(pool)) } else { Value::Null }
    }

    fn ranges(rng: &mut Prng, pool: &[&str]) -> Value {
        match rng.below(5) {
            0 | 1 => Value::Null,
            2 => json!([]),
            _ => Value::Array((0..rng.range(1, 3)).map(|_| json!([opt_s(rng, pool, 2, 3), opt_s(rng, pool, 2, 3)])).collect()),
        }
    }

    pub fn gen_case(rng: &mut Prng) -> Value {
        let cfg = json!({"ihc": rng.chance(1, 2), "ihdc": rng.chance(1, 2), "ipc": rng.chance(1, 2), "any": rng.chance(1, 2)});
        let mut src = Map::new();
        src.insert("id".into(), json!(format!("r{}", rng.below(100))));
        src.insert("rank".into(), json!(*rng.pick(&[0u64, 1, 7, 65535])));
        src.insert("scheme".into(), opt_s(rng, &["", "http", "https"], 1, 2));
        src.insert("host".into(), opt_s(rng, HOSTS, 2, 3));
        src.insert("path".into(), json!(*rng.pick(PATHS)));
        src.insert("query".into(), opt_s(rng, QUERIES, 1, 2));
        src.insert("markers".into(), json!(*rng.pick(&["", "", "d", "dl", "dlsx", "x"])));
        src.insert("ips".into(), match rng.below(5) {
            0 | 1 => Value::Null,
            2 => json!([]),
            _ => Value::Array((0..rng.range(1, 4)).map(|_| json!({"neg": rng.chance(1, 3), "range": *rng.pick(RANGES)})).collect()),
        });
        src.insert("methods".into(), match rng.below(5) {
            0 | 1 => Value::Null,
            2 => json!([]),
            3 => json!(["GET"]),
            _ => json!(["GET", "GET", "post"]),
        });
        src.insert("exclude".into(), match rng.below(4) {
            0 | 1 => Value::Null,
            2 => json!(false),
            _ => json!(true),
        });
        src.insert("headers".into(), match rng.below(5) {
            0 => Value::Null,
            1 => json!([]),
            _ => Value::Array((0..rng.range(1, 4)).map(|_| json!({"name": *rng.pick(&["X-A", "x-a", "Accept"]), "kind": *rng.pick(KINDS), "value": opt_s(rng, &["v", "Val", "V-@d", "@l", ""], 3, 4)})).collect()),
        });
        src.insert("datetime".into(), ranges(rng, INSTANTS));
        src.insert("time".into(), ranges(rng, TIMES));
        src.insert("weekdays".into(), match rng.below(5) {
            0 | 1 => Value::Null,
            2 => json!([]),
            _ => Value::Array((0..rng.range(1, 4)).map(|_| json!(*rng.pick(DAYS))).collect()),
        });
        json!({"kind": "into_route", "cfg": cfg, "src": Value::Object(src)})
    }

    /// Hint-directed rule sources: hinted numbers as rank, cidr prefix length / octet, hour / minute / day, counts of
    /// ranges / headers / week days; hinted strings as host, path, query, scheme, method, header kind / name / value,
    /// cidr, instant, time, week-day name.
    pub fn hint_cases(rng: &mut Prng, h: &Hints) -> Vec<Value> {
        let mut out = Vec::new();
        for v in hint_values(h, u32::MAX as u64) {
            let mut case = gen_case(rng);
            {
                let src = &mut case["src"];
                src["rank"] = json!(v);
                src["ips"] = json!([{"neg": false, "range": format!("10.0.0.0/{v}")}, {"neg": true, "range": format!("{v}.0.0.0/8")}, {"neg": false, "range": format!("10.{v}.0.1")}]);
                src["time"] = json!([[format!("{:02}:00:00", v % 100), format!("00:{:02}:00", v % 100)]]);
                src["datetime"] = json!([[format!("2020-01-{:02}T00:00:00Z", v % 100), format!("{:04}-01-01T00:00:00+00:00", 1970 + v % 8000)]]);
            }
            out.push(case);
        }
        for k in h.sizes(12) {
            let mut case = gen_case(rng);
            {
                let src = &mut case["src"];
                src["ips"] = Value::Array((0..k).map(|i| json!({"neg": i % 3 == 0, "range": RANGES[i % RANGES.len()]})).collect());
                src["headers"] = Value::Array((0..k).map(|i| json!({"name": "X-A", "kind": KINDS[i % KINDS.len()], "value": "v"})).collect());
                src["weekdays"] = Value::Array((0..k).map(|i| json!(DAYS[i % DAYS.len()])).collect());
                src["datetime"] = Value::Array((0..k).map(|i| json!([INSTANTS[i % INSTANTS.len()], Value::Null])).collect());
                src["methods"] = Value::Array((0..k).map(|i| json!(["GET", "POST", "get"][i % 3])).collect());
            }
            out.push(case);
        }
        for s in hint_strings(h) {
            for variant in 0..3 {
                let mut case = gen_case(rng);
                {
                    let src = &mut case["src"];
                    match variant {
                        0 => {
                            src["path"] = json!(format!("/{s}"));
                            src["query"] = json!(format!("{s}=1&a={s}"));
                            if s.is_ascii() {
                                src["host"] = json!(s);
                                src["scheme"] = json!(s);
                            }
                            src["methods"] = json!([s, "GET"]);
                        }
                        1 => {
                            let t = if s.is_ascii() { s.clone() } else { "v".to_string() };
                            src["headers"] = json!([
                                {"name": "X-A", "kind": s, "value": "v"},
                                {"name": if t.is_empty() { "X-A".to_string() } else { t.clone() }, "kind": "is_equals", "value": t},
                                {"name": "X-A", "kind": "match_regex", "value": format!("{t}@d")},
                                {"name": "X-A", "kind": "contains", "value": t.to_uppercase()},
                            ]);
                            src["markers"] = json!("d");
                        }
                        _ => {
                            src["ips"] = json!([{"neg": false, "range": s}, {"neg": false, "range": "10.0.0.0/8"}]);
                            src["datetime"] = json!([[s, "2020-01-01T00:00:00Z"]]);
                            src["time"] = json!([[s, Value::Null]]);
                            src["weekdays"] = json!([s, "mon"]);
                        }
                    }
                }
                out.push(case);
            }
        }
        out
    }

    fn marker_regex(c: char) -> Option<&'static str> {
        match c {
            'd' => Some("[0-9]+"),
            'l' => Some("[a-z]+"),
            's' => Some("[^/]+"),
            'x' => Some(".*"),
            _ => None,
        }
    }

    fn rule_json(src: &Value) -> Option<Value> {
        let mut markers = Vec::new();
        let ms: Vec<char> = src.get("markers").and_then(|m| m.as_str()).unwrap_or("").chars().collect();
        for (i, c) in ms.iter().enumerate() {
            if ms[..i].contains(c) {
                return None;
            }
            markers.push(json!({"name": c.to_string(), "regex": marker_regex(*c)?}));
        }
        let ips = match get(src, "ips") {
            Value::Null => Value::Null,
            Value::Array(a) => {
                let mut out = Vec::new();
                for ip in a {
                    let range = ip.get("range")?.as_str()?;
                    out.push(if ip.get("neg")?.as_bool()? { json!({"not_in_range": range}) } else { json!({"in_range": range}) });
                }
                Value::Array(out)
            }
            _ => return None,
        };
        let headers = match get(src, "headers") {
            Value::Null => Value::Null,
            Value::Array(a) => {
                let mut out = Vec::new();
                for h in a {
                    out.push(json!({"type": h.get("kind")?.as_str()?, "name": h.get("name")?.as_str()?, "value": get(h, "value")}));
                }
                Value::Array(out)
            }
            _ => return None,
        };
        Some(json!({
            "id": src.get("id")?.as_str()?, "rank": src.get("rank")?.as_u64()?, "markers": markers,
            "source": {"scheme": get(src, "scheme"), "host": get(src, "host"), "path": src.get("path")?.as_str()?, "query": get(src, "query"),
                       "ips": ips, "methods": get(src, "methods"), "exclude_methods": get(src, "exclude"), "headers": headers,
                       "datetime": get(src, "datetime"), "time": get(src, "time"), "weekdays": get(src, "weekdays")},
        }))
    }

    // Declared scope of the stand-in parsers of Model/IntoRoute.lean (`Std.cidrInScope`, `timeInScope`, `dateTimeInScope`):
    // a field whose input strings leave it is reported as "out-of-scope" on both sides (tagged, counted, not invalid).
    fn has_digit(s: &str) -> bool {
        s.chars().any(|c| c.is_ascii_digit())
    }

    fn shape(pat: &str, s: &str) -> bool {
        let (p, c): (Vec<char>, Vec<char>) = (pat.chars().collect(), s.chars().collect());
        p.len() == c.len() && p.iter().zip(c.iter()).all(|(p, c)| if *p == 'd' { c.is_ascii_digit() } else { p == c })
    }

    fn time_in_scope(s: &str) -> bool {
        shape("dd:dd:dd", s) || !has_digit(s)
    }

    fn datetime_in_scope(s: &str) -> bool {
        let plus = shape("dddd-dd-ddTdd:dd:dd+dd:dd", s);
        let year: u32 = s.chars().take(4).collect::<String>().parse().unwrap_or(0);
        ((shape("dddd-dd-ddTdd:dd:ddZ", s) || plus || shape("dddd-dd-ddTdd:dd:dd-dd:dd", s)) && (year >= 1971 || (year == 1970 && !plus))) || !has_digit(s)
    }

    fn bounds_in_scope(v: &Value, f: &dyn Fn(&str) -> bool) -> bool {
        v.as_array().map_or(true, |a| a.iter().all(|r| r.as_array().map_or(true, |b| b.iter().all(|x| x.as_str().map_or(true, f)))))
    }

    fn sod(s: &StaticOrDynamic) -> Value {
        match s {
            StaticOrDynamic::Static(s) => json!({"static": s}),
            StaticOrDynamic::Dynamic(m) => json!({"dyn": m.regex}),
        }
    }

    pub fn run(case: &Value) -> Obs {
        let config = match case.get("cfg") {
            Some(c) => {
                let b = |k: &str| c.get(k).and_then(|v| v.as_bool());
                match (b("ihc"), b("ihdc"), b("ipc"), b("any")) {
                    (Some(ihc), Some(ihdc), Some(ipc), Some(any)) => {
                        let mut cfg = RouterConfig::default();
                        cfg.ignore_host_case = ihc;
                        cfg.ignore_header_case = ihdc;
                        cfg.ignore_path_and_query_case = ipc;
                        cfg.always_match_any_host = any;
                        cfg
                    }
                    _ => return Obs::invalid("cfg"),
                }
            }
            None => return Obs::invalid("cfg"),
        };
        let src = match case.get("src") {
            Some(s) => s,
            None => return Obs::invalid("src"),
        };
        // the model lower-cases ASCII only and renders the encoded path as ASCII: keep texts where that is what Rust does
        for k in ["host", "scheme"] {
            if let Some(s) = get(src, k).as_str() {
                if !s.is_ascii() {
                    return Obs::invalid("non-ascii host / scheme");
                }
            }
        }
        let rule: Rule = match rule_json(src).and_then(|j| serde_json::from_value(j).ok()) {
            Some(r) => r,
            None => return Obs::invalid("rule source"),
        };
        if let Some(hs) = &rule.source.headers {
            if hs.iter().any(|h| !h.name.is_ascii() || h.value.as_ref().map_or(false, |v| !v.is_ascii())) {
                return Obs::invalid("non-ascii header text");
            }
        }
        let route = rule.into_route(&config);
        let headers: Vec<Value> = route
            .headers()
            .iter()
            .map(|h| {
                let (kind, payload) = match &h.kind {
                    RouteHeaderKind::IsDefined => ("is_defined", Value::Null),
                    RouteHeaderKind::IsNotDefined => ("is_not_defined", Value::Null),
                    RouteHeaderKind::IsEquals(v) => ("is_equals", json!(v)),
                    RouteHeaderKind::IsNotEqualTo(v) => ("is_not_equal_to", json!(v)),
                    RouteHeaderKind::Contains(v) => ("contains", json!(v)),
                    RouteHeaderKind::DoesNotContain(v) => ("does_not_contain", json!(v)),
                    RouteHeaderKind::EndsWith(v) => ("ends_with", json!(v)),
                    RouteHeaderKind::StartsWith(v) => ("starts_with", json!(v)),
                    RouteHeaderKind::MatchRegex(m) => ("match_regex", json!(m.regex)),
                };
                json!([h.name, kind, payload])
            })
            .collect();
        let ips = match route.ips() {
            None => Value::Null,
            Some(v) => Value::Array(
                v.iter()
                    .map(|ip| {
                        let (neg, c) = match ip {
                            RouteIp::InRange(c) => (false, c),
                            RouteIp::NotInRange(c) => (true, c),
                        };
                        match (c.first_address(), c.network_length()) {
                            (Some(std::net::IpAddr::V4(a)), Some(n)) => json!([neg, false, u32::from(a), n]),
                            (Some(std::net::IpAddr::V6(a)), Some(n)) => json!([neg, true, u128::from(a).to_string(), n]),
                            _ => json!([neg, "any"]),
                        }
                    })
                    .collect(),
            ),
        };
        let datetime = match route.datetime() {
            None => Value::Null,
            Some(v) => Value::Array(v.iter().map(|r| json!([r.start.map(|d| d.and_utc().timestamp()), r.end.map(|d| d.and_utc().timestamp())])).collect()),
        };
        let time = match route.time() {
            None => Value::Null,
            Some(v) => Value::Array(v.iter().map(|r| json!([r.start.map(|t| t.num_seconds_from_midnight()), r.end.map(|t| t.num_seconds_from_midnight())])).collect()),
        };
        let weekdays = match route.weekdays() {
            None => Value::Null,
            Some(w) => json!(w.weekdays.0.iter().map(|d| d.num_days_from_monday()).collect::<Vec<u32>>()),
        };
        let _ = chrono::Utc::now().year();
        let ips_ok = get(src, "ips").as_array().map_or(true, |a| a.iter().all(|ip| ip.get("range").and_then(|r| r.as_str()) != Some("any")));
        let dt_ok = bounds_in_scope(get(src, "datetime"), &datetime_in_scope);
        let time_ok = bounds_in_scope(get(src, "time"), &time_in_scope);
        let oos = json!("out-of-scope");
        let (ips, datetime, time) = (if ips_ok { ips } else { oos.clone() }, if dt_ok { datetime } else { oos.clone() }, if time_ok { time } else { oos.clone() });
        let obs = json!({
            "id": route.id(), "priority": route.priority(), "scheme": route.scheme(), "methods": route.methods(), "exclude": route.exclude_methods(),
            "host": route.host().map(sod), "path": sod(route.path_and_query()), "headers": headers, "ips": ips,
            "datetime": datetime, "time": time, "weekdays": weekdays,
        });
        let mut o = Obs::new(obs).tag("kind:into_route");
        if route.ips().is_some() {
            o.tags.push("ir:ips".into());
        }
        if matches!(route.path_and_query(), StaticOrDynamic::Dynamic(_)) {
            o.tags.push("ir:dyn-path".into());
        }
        if route.datetime().is_some() || route.time().is_some() || route.weekdays().is_some() {
            o.tags.push("ir:date".into());
        }
        if !route.headers().is_empty() {
            o.tags.push("ir:headers".into());
        }
        if !(ips_ok && dt_ok && time_ok) {
            o.tags.push("ir:out-of-scope".into());
        }
        o
    }
}

fn main() {
    main_with(gen, run);
}
