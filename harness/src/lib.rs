//! Shared plumbing of the correspondence harness.
//!
//! Every binary `cXX` speaks the same protocol:
//!   cXX gen --seed S --n N --tier quick|thorough   -> one JSON case per line on stdout
//!   cXX run                                        <- cases on stdin, one JSON observation per line on stdout
//! An observation is `{"obs": <canonical value>, "oracle": "ok" | "<what failed>", "sig": <class of the
//! failure or null>, "nt": <bool: non-trivial case>, "tags": [..]}`; a panic inside the code under test
//! is caught and reported as `{"obs": {"panic": "<message>"}, ...}`.

use serde_json::{json, Value};
use std::io::{BufRead, Write};
use std::panic::{catch_unwind, AssertUnwindSafe};

/// splitmix64 — every random choice of a run derives from the one seed.
#[derive(Clone)]
pub struct Prng(pub u64);

impl Prng {
    pub fn new(seed: u64) -> Self {
        // mix the seed first: consecutive seeds must not give the same stream shifted by one draw
        let mut p = Prng(seed ^ 0x1234_5678_9ABC_DEF1);
        let a = p.next();
        let b = p.next();
        Prng(a ^ b.rotate_left(29) ^ seed.wrapping_mul(0xD6E8_FEB8_6659_FD93))
    }
    pub fn next(&mut self) -> u64 {
        self.0 = self.0.wrapping_add(0x9E3779B97F4A7C15);
        let mut z = self.0;
        z = (z ^ (z >> 30)).wrapping_mul(0xBF58476D1CE4E5B9);
        z = (z ^ (z >> 27)).wrapping_mul(0x94D049BB133111EB);
        z ^ (z >> 31)
    }
    /// uniform in 0..n (n > 0)
    pub fn below(&mut self, n: usize) -> usize {
        (self.next() % (n as u64)) as usize
    }
    pub fn range(&mut self, lo: usize, hi_incl: usize) -> usize {
        lo + self.below(hi_incl - lo + 1)
    }
    pub fn chance(&mut self, num: usize, den: usize) -> bool {
        self.below(den) < num
    }
    pub fn pick<'a, T>(&mut self, xs: &'a [T]) -> &'a T {
        &xs[self.below(xs.len())]
    }
    pub fn fork(&mut self) -> Prng {
        Prng(self.next())
    }
}

/// Search hints derived by ./check from the source diff against the committed baseline (env VERIF_HINTS, JSON
/// `{"nums":[..],"strs":[..]}`): numbers and literals the changed lines mention.  Empty on the unchanged tree.
/// Generators should try sizes / counts / lengths n-1, n, n+1 for each number and inject each string (also
/// upper/lower-cased) at the places where their grammar has free text, bytes, names or values.
#[derive(Default, Clone, Debug)]
pub struct Hints {
    pub nums: Vec<u64>,
    pub strs: Vec<String>,
}

pub fn hints() -> Hints {
    let mut h = Hints::default();
    if let Ok(text) = std::env::var("VERIF_HINTS") {
        if let Ok(v) = serde_json::from_str::<Value>(&text) {
            if let Some(a) = v.get("nums").and_then(|x| x.as_array()) {
                h.nums = a.iter().filter_map(|x| x.as_u64()).collect();
            }
            if let Some(a) = v.get("strs").and_then(|x| x.as_array()) {
                h.strs = a.iter().filter_map(|x| x.as_str().map(|s| s.to_string())).collect();
            }
        }
    }
    h
}

impl Hints {
    pub fn is_empty(&self) -> bool {
        self.nums.is_empty() && self.strs.is_empty()
    }
    /// n-1, n, n+1 for every hinted number that is a plausible size (1 ..= max)
    pub fn sizes(&self, max: u64) -> Vec<usize> {
        let mut out = Vec::new();
        for n in &self.nums {
            for d in [-1i64, 0, 1] {
                let v = *n as i64 + d;
                if v >= 1 && (v as u64) <= max && !out.contains(&(v as usize)) {
                    out.push(v as usize);
                }
            }
        }
        out
    }
}

pub struct Args {
    pub mode: String,
    pub seed: u64,
    pub n: usize,
    pub tier: String,
    pub extra: Vec<String>,
}

pub fn parse_args() -> Args {
    let argv: Vec<String> = std::env::args().collect();
    let mut a = Args {
        mode: argv.get(1).cloned().unwrap_or_else(|| "run".to_string()),
        seed: 1,
        n: 100,
        tier: "quick".to_string(),
        extra: Vec::new(),
    };
    let mut i = 2;
    while i < argv.len() {
        match argv[i].as_str() {
            "--seed" => {
                a.seed = argv[i + 1].parse().expect("seed");
                i += 2;
            }
            "--n" => {
                a.n = argv[i + 1].parse().expect("n");
                i += 2;
            }
            "--tier" => {
                a.tier = argv[i + 1].clone();
                i += 2;
            }
            other => {
                a.extra.push(other.to_string());
                i += 1;
            }
        }
    }
    a
}

pub fn hex(bytes: &[u8]) -> String {
    let mut s = String::with_capacity(bytes.len() * 2);
    for b in bytes {
        s.push_str(&format!("{:02x}", b));
    }
    s
}

pub fn unhex(s: &str) -> Option<Vec<u8>> {
    if s.len() % 2 != 0 {
        return None;
    }
    let mut out = Vec::with_capacity(s.len() / 2);
    let b = s.as_bytes();
    for i in (0..b.len()).step_by(2) {
        let h = (b[i] as char).to_digit(16)?;
        let l = (b[i + 1] as char).to_digit(16)?;
        out.push((h * 16 + l) as u8);
    }
    Some(out)
}

/// Result of running one case against the implementation.
pub struct Obs {
    pub obs: Value,
    /// "ok" or a description of the oracle failure (an oracle evaluated on the implementation alone)
    pub oracle: String,
    /// class of the failure (for known-findings matching), if any
    pub sig: Option<String>,
    /// whether the case is non-trivial by the property's own rule
    pub nontrivial: bool,
    pub tags: Vec<String>,
}

impl Obs {
    pub fn new(obs: Value) -> Self {
        Obs { obs, oracle: "ok".to_string(), sig: None, nontrivial: true, tags: Vec::new() }
    }
    pub fn invalid(why: &str) -> Self {
        Obs { obs: json!({"invalid": why}), oracle: "ok".to_string(), sig: None, nontrivial: false, tags: vec!["invalid".to_string()] }
    }
    pub fn fail(mut self, why: impl Into<String>, sig: &str) -> Self {
        self.oracle = why.into();
        self.sig = Some(sig.to_string());
        self
    }
    pub fn tag(mut self, t: impl Into<String>) -> Self {
        self.tags.push(t.into());
        self
    }
    pub fn trivial(mut self, t: bool) -> Self {
        self.nontrivial = !t;
        self
    }
}

fn silence_panics() {
    std::panic::set_hook(Box::new(|_| {}));
}

/// Standard `main`: `gen` prints cases, `run` executes cases read from stdin.
pub fn main_with(gen: impl Fn(&Args, &mut dyn FnMut(Value)), run: impl Fn(&Value) -> Obs) {
    let args = parse_args();
    let stdout = std::io::stdout();
    let mut out = std::io::BufWriter::new(stdout.lock());
    match args.mode.as_str() {
        "gen" => {
            let mut emit = |v: Value| {
                writeln!(out, "{}", v).unwrap();
            };
            gen(&args, &mut emit);
        }
        "run" => {
            silence_panics();
            let stdin = std::io::stdin();
            for line in stdin.lock().lines() {
                let line = line.unwrap();
                if line.trim().is_empty() {
                    continue;
                }
                let case: Value = match serde_json::from_str(&line) {
                    Ok(v) => v,
                    Err(e) => {
                        writeln!(out, "{}", json!({"obs": {"invalid": format!("json: {e}")}, "oracle": "ok", "sig": null, "nt": false, "tags": ["invalid"]})).unwrap();
                        continue;
                    }
                };
                let o = match catch_unwind(AssertUnwindSafe(|| run(&case))) {
                    Ok(o) => o,
                    Err(p) => {
                        let msg = if let Some(s) = p.downcast_ref::<String>() {
                            s.clone()
                        } else if let Some(s) = p.downcast_ref::<&str>() {
                            s.to_string()
                        } else {
                            "panic".to_string()
                        };
                        Obs { obs: json!({"panic": msg}), oracle: "panic".to_string(), sig: Some("panic".to_string()), nontrivial: true, tags: vec!["panic".to_string()] }
                    }
                };
                writeln!(out, "{}", json!({"obs": o.obs, "oracle": o.oracle, "sig": o.sig, "nt": o.nontrivial, "tags": o.tags})).unwrap();
                // one flush per case: if the process dies on the NEXT case (abort, stack overflow), every answered case is on disk
                // and the first unanswered line is exactly the culprit
                out.flush().unwrap();
            }
        }
        other => {
            eprintln!("unknown mode {other}");
            std::process::exit(2);
        }
    }
    out.flush().unwrap();
}

pub fn s(v: &Value, k: &str) -> Option<String> {
    v.get(k).and_then(|x| x.as_str()).map(|x| x.to_string())
}
